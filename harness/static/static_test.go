package static

// Driver `static` (C12): generated call trees (bytecode assembled here; a contract may stand at several nodes of a
// tree: it is re-entered, in particular the transaction's `to` contract below a STATICCALL) over
// CALL / DELEGATECALL / CALLCODE / STATICCALL that reach every registered method of every registered custom
// precompiled contract, executed as real transactions; plus every method executed directly by an EOA, and the
// method tables regenerated from the running code.

import (
	"crypto/sha256"
	"encoding/hex"
	"fmt"
	"math/big"
	"reflect"
	"sort"
	"strings"
	"testing"
	"time"

	sdkmath "cosmossdk.io/math"
	sdk "github.com/cosmos/cosmos-sdk/types"
	authtypes "github.com/cosmos/cosmos-sdk/x/auth/types"
	disttypes "github.com/cosmos/cosmos-sdk/x/distribution/types"
	stakingkeeper "github.com/cosmos/cosmos-sdk/x/staking/keeper"
	stakingtypes "github.com/cosmos/cosmos-sdk/x/staking/types"
	ethabi "github.com/ethereum/go-ethereum/accounts/abi"
	"github.com/ethereum/go-ethereum/common"
	corevm "github.com/ethereum/go-ethereum/core/vm"
	ethtypes "github.com/ethereum/go-ethereum/core/types"
	"github.com/stretchr/testify/require"

	itutiltypes "github.com/EscanBE/evermint/v12/integration_test_util/types"
	cpcabi "github.com/EscanBE/evermint/v12/x/cpc/abi"
	cpckeeper "github.com/EscanBE/evermint/v12/x/cpc/keeper"
	cpctypes "github.com/EscanBE/evermint/v12/x/cpc/types"
	evmtypes "github.com/EscanBE/evermint/v12/x/evm/types"

	. "verifharness/hx"
)

// ------------------------------------------------------------------ environment

type method struct {
	Sel  [4]byte
	RO   bool
	Gas  uint64
	Name string // from the ABI of the contract type ("" if the running code registers a selector the ABI does not know)
}

type contract struct {
	Addr    common.Address
	Type    uint32
	Denom   string // ERC-20 only
	Methods []method
}

const (
	poolSize   = 12
	maxLeaves  = 9
	nRecipient = 16
	leafSlack  = 60_000 // gas given to a precompile call on top of the method's RequireGas
)

type env struct {
	t        *testing.T
	c        *Chain
	bond     string
	cts      []*contract
	pool     []*itutiltypes.TestAccount
	byAddr   map[common.Address]*itutiltypes.TestAccount
	owner    *itutiltypes.TestAccount
	eoa      *itutiltypes.TestAccount // keyed account without code, same state as a pool account: direct calls
	senders  []*itutiltypes.TestAccount
	vals     []sdk.ValAddress // bonded validators
	valStr   []string
	chainID  *big.Int
	nextSend int
}

func e18(n int64) *big.Int { return new(big.Int).Mul(big.NewInt(n), new(big.Int).Exp(big.NewInt(10), big.NewInt(18), nil)) }

func recipient(i int) common.Address {
	return common.BigToAddress(new(big.Int).Add(new(big.Int).Lsh(big.NewInt(0xbeef), 32), big.NewInt(int64(i%nRecipient))))
}

func newEnv(t *testing.T) *env {
	c := NewChain(t, time.Time{})
	e := &env{t: t, c: c, byAddr: map[common.Address]*itutiltypes.TestAccount{}}
	ctx := c.Ctx()
	var err error
	e.bond, err = c.App.StakingKeeper.BondDenom(ctx)
	require.NoError(t, err)
	c.DeployCpcs(e.bond, "utwo")
	c.RepairConsAddrIndex()
	sp, err := c.App.StakingKeeper.GetParams(ctx)
	require.NoError(t, err)
	sp.MaxEntries = 10000
	require.NoError(t, c.App.StakingKeeper.SetParams(ctx, sp))
	e.chainID = c.EvmChainID()

	vals, err := c.App.StakingKeeper.GetBondedValidatorsByPower(ctx)
	require.NoError(t, err)
	require.GreaterOrEqual(t, len(vals), 3)
	for _, v := range vals {
		bz, err := c.App.StakingKeeper.ValidatorAddressCodec().StringToBytes(v.OperatorAddress)
		require.NoError(t, err)
		e.vals = append(e.vals, sdk.ValAddress(bz))
	}
	sort.Slice(e.vals, func(i, j int) bool { return e.vals[i].String() < e.vals[j].String() })
	for _, v := range e.vals {
		e.valStr = append(e.valStr, v.String())
	}

	for i := 0; i < poolSize; i++ {
		a := c.DetAccount("pool", i)
		e.pool = append(e.pool, a)
	}
	e.owner = c.DetAccount("owner", 0)
	e.eoa = c.DetAccount("eoa", 0)
	all := append(append([]*itutiltypes.TestAccount{}, e.pool...), e.owner, e.eoa)
	for _, a := range all {
		e.byAddr[a.GetEthAddress()] = a
		c.Fund(a.GetCosmosAddress(), e.bond, e18(100000))
		c.Fund(a.GetCosmosAddress(), "utwo", e18(1))
	}
	for i := 1; i <= 5; i++ {
		s := c.S.WalletAccounts.Number(i)
		c.Fund(s.GetCosmosAddress(), e.bond, e18(100000))
		e.senders = append(e.senders, s)
	}
	ms := stakingkeeper.NewMsgServerImpl(c.App.StakingKeeper)
	for _, a := range append(append([]*itutiltypes.TestAccount{}, e.pool...), e.eoa) {
		c.App.CPCKeeper.SetErc20CpcAllowance(ctx, e.owner.GetEthAddress(), a.GetEthAddress(), Pow2(200))
		for _, v := range e.valStr[:2] {
			_, err := ms.Delegate(ctx, stakingtypes.NewMsgDelegate(a.GetCosmosAddress().String(), v, sdk.NewCoin(e.bond, sdkmath.NewIntFromBigInt(e18(10)))))
			require.NoError(t, err)
		}
	}
	e.accrue()
	e.accrue()
	e.loadContracts()
	return e
}

// accrue puts coins into the fee collector and runs an empty block, so that every delegation has rewards to withdraw.
func (e *env) accrue() {
	ctx := e.c.Ctx()
	coins := sdk.NewCoins(sdk.NewCoin(e.bond, sdkmath.NewIntFromBigInt(e18(50))))
	require.NoError(e.t, e.c.App.BankKeeper.MintCoins(ctx, evmtypes.ModuleName, coins))
	require.NoError(e.t, e.c.App.BankKeeper.SendCoinsFromModuleToModule(ctx, evmtypes.ModuleName, authtypes.FeeCollectorName, coins))
	e.c.RunBlockVoted(nil)
}

func abiOf(typ uint32) *ethabi.ABI {
	switch typ {
	case cpctypes.CpcTypeErc20:
		return &cpcabi.Erc20CpcInfo.ABI
	case cpctypes.CpcTypeStaking:
		return &cpcabi.StakingCpcInfo.ABI
	case cpctypes.CpcTypeBech32:
		return &cpcabi.Bech32CpcInfo.ABI
	}
	return nil
}

// newMethod calls cpckeeper.NewCustomPrecompiledContractMethod(executor, protocol version, ...) by reflection, with zero
// values for any further parameter: the regenerated table needs the selector, ReadOnly and RequireGas only, and a change
// of the constructor's parameter list must not hide from the oracle what the change does to the call trees (the driver
// would not compile, the run would end with "no failing input found").
func newMethod(ex cpckeeper.ExtendedCustomPrecompiledContractMethodExecutorI, ver cpctypes.ProtocolCpc) corevm.CustomPrecompiledContractMethod {
	f := reflect.ValueOf(cpckeeper.NewCustomPrecompiledContractMethod)
	args := []reflect.Value{reflect.ValueOf(ex), reflect.ValueOf(ver)}
	for i := len(args); i < f.Type().NumIn(); i++ {
		args = append(args, reflect.Zero(f.Type().In(i)))
	}
	return f.Call(args)[0].Interface().(corevm.CustomPrecompiledContractMethod)
}

// loadContracts regenerates the method tables from the running code: exactly what NewEVM hands to the interpreter.
func (e *env) loadContracts() {
	ctx := e.c.QueryCtx()
	ver := e.c.App.CPCKeeper.GetProtocolCpcVersion(ctx)
	for _, ct := range e.c.App.CPCKeeper.GetAllCustomPrecompiledContracts(ctx) {
		meta := ct.GetMetadata()
		c := &contract{Addr: common.BytesToAddress(meta.Address), Type: meta.CustomPrecompiledType}
		if c.Type == cpctypes.CpcTypeErc20 {
			if strings.Contains(meta.TypedMeta, "\"utwo\"") {
				c.Denom = "utwo"
			} else {
				c.Denom = e.bond
			}
		}
		a := abiOf(c.Type)
		for _, ex := range ct.GetMethodExecutors() {
			cm := newMethod(ex, ver)
			m := method{RO: cm.ReadOnly, Gas: cm.RequireGas}
			copy(m.Sel[:], cm.Method4BytesSignatures)
			if a != nil {
				for name, am := range a.Methods {
					if string(am.ID) == string(m.Sel[:]) {
						m.Name = name
					}
				}
			}
			c.Methods = append(c.Methods, m)
		}
		e.cts = append(e.cts, c)
	}
	sort.Slice(e.cts, func(i, j int) bool { return strings.Compare(e.cts[i].Addr.Hex(), e.cts[j].Addr.Hex()) < 0 })
}

// payload builds valid calldata for a method, to be sent by `caller` (a keyed account), for leaf number idx.
// ok=false: the harness does not know this method (it is still reported through the regenerated table).
func (e *env) payload(ct *contract, m *method, caller *itutiltypes.TestAccount, idx int) ([]byte, bool) {
	a := abiOf(ct.Type)
	if a == nil || m.Name == "" {
		return nil, false
	}
	me := caller.GetEthAddress()
	val := func(i int) common.Address { return common.BytesToAddress(e.vals[i]) }
	n := int64(idx)
	var args []interface{}
	switch ct.Type {
	case cpctypes.CpcTypeErc20:
		unit := big.NewInt(1000 + n)
		switch m.Name {
		case "name", "symbol", "decimals", "totalSupply":
		case "balanceOf":
			args = []interface{}{me}
		case "allowance":
			args = []interface{}{e.owner.GetEthAddress(), me}
		case "transfer":
			args = []interface{}{recipient(idx), unit}
		case "transferFrom":
			args = []interface{}{e.owner.GetEthAddress(), recipient(idx), unit}
		case "approve":
			args = []interface{}{recipient(idx + 7), big.NewInt(777 + n)}
		case "burnFrom":
			args = []interface{}{e.owner.GetEthAddress(), unit}
		case "burn":
			args = []interface{}{unit}
		default:
			return nil, false
		}
	case cpctypes.CpcTypeStaking:
		amt := new(big.Int).Add(big.NewInt(1_000_000_000_000_000), big.NewInt(n))
		switch m.Name {
		case "name", "symbol", "decimals":
		case "delegatedValidators", "totalDelegationOf", "rewardsOf", "balanceOf":
			args = []interface{}{me}
		case "delegationOf", "rewardOf":
			args = []interface{}{me, val(idx % 2)}
		case "delegate":
			args = []interface{}{val(idx % 3), amt}
		case "undelegate":
			args = []interface{}{val(idx % 2), amt}
		case "redelegate":
			args = []interface{}{val(0), val(1), amt}
		case "withdrawReward":
			args = []interface{}{val(idx % 2)}
		case "withdrawRewards":
		case "transfer":
			args = []interface{}{me, amt}
		case "delegateByActionMessage":
			msg := cpcabi.StakingMessage{Delegator: me, Amount: amt, Denom: e.bond, OldValidator: "-"}
			switch idx % 3 {
			case 0:
				msg.Action, msg.Validator = cpcabi.StakingMessageActionDelegate, e.valStr[2]
			case 1:
				msg.Action, msg.Validator = cpcabi.StakingMessageActionUndelegate, e.valStr[1]
			default:
				msg.Action, msg.Validator, msg.OldValidator = cpcabi.StakingMessageActionRedelegate, e.valStr[1], e.valStr[0]
			}
			r, s, v, err := SignTyped(caller, msg, e.chainID)
			require.NoError(e.t, err)
			args = []interface{}{msg, r, s, v}
		case "withdrawRewardsByMessage":
			msg := cpcabi.WithdrawRewardMessage{Delegator: me, FromValidator: cpcabi.WithdrawRewardMessageActionWithdrawFromAllValidators}
			if idx%2 == 1 {
				msg.FromValidator = e.valStr[0]
			}
			r, s, v, err := SignTyped(caller, msg, e.chainID)
			require.NoError(e.t, err)
			args = []interface{}{msg, r, s, v}
		default:
			return nil, false
		}
	case cpctypes.CpcTypeBech32:
		switch m.Name {
		case "bech32EncodeAddress":
			args = []interface{}{"evm", me}
		case "bech32Encode32BytesAddress":
			args = []interface{}{"evm", common.BytesToHash(me.Bytes())}
		case "bech32EncodeBytes":
			args = []interface{}{"evm", []byte{1, 2, 3, byte(idx)}}
		case "bech32Decode":
			args = []interface{}{caller.GetCosmosAddress().String()}
		case "bech32AccountAddrPrefix", "bech32AccountPubPrefix", "bech32ConsensusAddrPrefix", "bech32ConsensusPubPrefix",
			"bech32ValidatorAddrPrefix", "bech32ValidatorPubPrefix":
		default:
			return nil, false
		}
	}
	bz, err := a.Pack(m.Name, args...)
	if err != nil {
		return nil, false
	}
	return bz, true
}

// projection of the state a precompile can touch, without anything fee- or block-related:
// balances / accounts of every tracked address, the whole cpc store (allowances, metadata), every delegation,
// unbonding delegation, redelegation, validator tokens and shares, delegator starting infos.
func (e *env) projection(ctx sdk.Context) string {
	c := e.c
	var sb strings.Builder
	var tracked []common.Address
	for _, a := range e.pool {
		tracked = append(tracked, a.GetEthAddress())
	}
	tracked = append(tracked, e.owner.GetEthAddress(), e.eoa.GetEthAddress())
	for i := 0; i < nRecipient+8; i++ {
		tracked = append(tracked, recipient(i))
	}
	for _, ct := range e.cts {
		tracked = append(tracked, ct.Addr)
	}
	for _, a := range tracked {
		acc := c.App.AccountKeeper.GetAccount(ctx, a.Bytes())
		seq := int64(-1)
		if acc != nil {
			seq = int64(acc.GetSequence())
		}
		fmt.Fprintf(&sb, "%x:%s:%d:%x|", a.Bytes()[12:], c.App.BankKeeper.GetAllBalances(ctx, a.Bytes()).String(), seq, c.App.EvmKeeper.GetCodeHash(ctx, a.Bytes()).Bytes()[:4])
	}
	sb.WriteString("cpc=" + c.StoreDigests(ctx)["cpc"] + "|")
	dels, err := c.App.StakingKeeper.GetAllDelegations(ctx)
	require.NoError(e.t, err)
	for _, d := range dels {
		fmt.Fprintf(&sb, "D:%s:%s:%s|", d.DelegatorAddress, d.ValidatorAddress, d.Shares.String())
	}
	require.NoError(e.t, c.App.StakingKeeper.IterateUnbondingDelegations(ctx, func(_ int64, u stakingtypes.UnbondingDelegation) bool {
		fmt.Fprintf(&sb, "U:%s:%s:", u.DelegatorAddress, u.ValidatorAddress)
		for _, en := range u.Entries {
			fmt.Fprintf(&sb, "%s/%s/%d,", en.InitialBalance, en.Balance, en.CreationHeight)
		}
		sb.WriteString("|")
		return false
	}))
	require.NoError(e.t, c.App.StakingKeeper.IterateRedelegations(ctx, func(_ int64, r stakingtypes.Redelegation) bool {
		fmt.Fprintf(&sb, "R:%s:%s:%s:", r.DelegatorAddress, r.ValidatorSrcAddress, r.ValidatorDstAddress)
		for _, en := range r.Entries {
			fmt.Fprintf(&sb, "%s/%s/%d,", en.InitialBalance, en.SharesDst, en.CreationHeight)
		}
		sb.WriteString("|")
		return false
	}))
	vs, err := c.App.StakingKeeper.GetAllValidators(ctx)
	require.NoError(e.t, err)
	for _, v := range vs {
		fmt.Fprintf(&sb, "V:%s:%s:%s|", v.OperatorAddress, v.Tokens, v.DelegatorShares)
	}
	c.App.DistrKeeper.IterateDelegatorStartingInfos(ctx, func(val sdk.ValAddress, del sdk.AccAddress, info disttypes.DelegatorStartingInfo) bool {
		fmt.Fprintf(&sb, "S:%s:%s:%d:%s|", val, del, info.PreviousPeriod, info.Stake)
		return false
	})
	return sb.String()
}

// ------------------------------------------------------------------ call trees

type tnode struct {
	op     byte
	nzv    bool
	strict bool
	leaf   bool
	// leaf
	id int
	ct *contract
	m  *method
	// code
	kids []*tnode
	same *tnode                   // stands at the address of that (earlier, in pre-order) code node: the contract is re-entered
	slot int                      // index of acct in the pool
	vrnt int                      // which of the programs of the contract at acct this node is (first calldata byte)
	prog []NodeCall               // the node's program
	acct *itutiltypes.TestAccount // where the code lives
	ctx  *itutiltypes.TestAccount // execution context (ADDRESS) of the frame
	gas  uint64                   // gas operand used by the parent for this call
	// derived
	prot bool   // a STATICCALL on the path from the root (own opcode included)
	path string // opcode path, e.g. STATICCALL>code>CALL>cpc
}

func opName(op byte) string {
	switch op {
	case OpCALL:
		return "CALL"
	case OpDELEGATECALL:
		return "DELEGATECALL"
	case OpCALLCODE:
		return "CALLCODE"
	case OpSTATICCALL:
		return "STATICCALL"
	}
	return "?"
}

type treeGen struct {
	r        *Rng
	leaves   int
	codes    int
	maxDepth int
}

func (g *treeGen) pickOp() byte {
	switch x := g.r.Intn(10); {
	case x < 3:
		return OpSTATICCALL
	case x < 6:
		return OpCALL
	case x < 8:
		return OpDELEGATECALL
	default:
		return OpCALLCODE
	}
}

// code frame at the given depth (root = 0); leaves sit at depth <= maxDepth
func (g *treeGen) code(depth int, op byte) *tnode {
	n := &tnode{op: op}
	g.codes++
	nk := 1 + g.r.Intn(3)
	for i := 0; i < nk; i++ {
		if g.leaves >= maxLeaves {
			break
		}
		kop := g.pickOp()
		strict := g.r.Chance(30)
		asLeaf := depth+1 >= g.maxDepth || g.codes >= poolSize-1 || g.r.Chance(35+10*depth)
		var k *tnode
		if asLeaf {
			k = &tnode{op: kop, leaf: true, id: g.leaves}
			g.leaves++
		} else {
			k = g.code(depth+1, kop)
		}
		k.strict = strict
		n.kids = append(n.kids, k)
	}
	if len(n.kids) == 0 { // keep every code frame non-empty when the leaf budget allows
		if g.leaves < maxLeaves+3 {
			n.kids = append(n.kids, &tnode{op: g.pickOp(), leaf: true, id: g.leaves})
			g.leaves++
		}
	}
	return n
}

func walk(n *tnode, f func(n *tnode, path []*tnode), path []*tnode) {
	f(n, path)
	for _, k := range n.kids {
		walk(k, f, append(path, n))
	}
}

// annotate computes prot/path for every node; the root's opcode is the transaction's CALL.
func annotate(root *tnode) {
	var rec func(n *tnode, seen bool, path string)
	rec = func(n *tnode, seen bool, path string) {
		for _, k := range n.kids {
			p := path
			if p != "" {
				p += ">code>"
			}
			p += opName(k.op)
			k.prot = seen || k.op == OpSTATICCALL
			if k.leaf {
				k.path = p + ">cpc"
			} else {
				k.path = p
				rec(k, k.prot, p)
			}
		}
	}
	rec(root, false, "")
}

func (e *env) allMethods() (out []struct {
	ct *contract
	m  *method
}) {
	for _, ct := range e.cts {
		for i := range ct.Methods {
			out = append(out, struct {
				ct *contract
				m  *method
			}{ct, &ct.Methods[i]})
		}
	}
	return
}

// place assigns code addresses and contexts, gas operands, and assembles and installs the bytecode.
// Returns the gas the transaction needs, or false if the tree does not fit (too many frames / too much gas).
func (e *env) place(root *tnode) (uint64, bool) {
	next := 0
	ok := true
	progs := make([][]*tnode, len(e.pool)) // per pool account: the nodes that stand at its address, in pre-order
	var assign func(n *tnode, parentCtx *itutiltypes.TestAccount)
	assign = func(n *tnode, parentCtx *itutiltypes.TestAccount) {
		if n.same != nil {
			n.slot = n.same.slot
		} else {
			if next >= len(e.pool) {
				ok = false
				return
			}
			n.slot = next
			next++
		}
		n.acct = e.pool[n.slot]
		n.vrnt = len(progs[n.slot])
		progs[n.slot] = append(progs[n.slot], n)
		if parentCtx == nil || n.op == OpCALL || n.op == OpSTATICCALL {
			n.ctx = n.acct
		} else {
			n.ctx = parentCtx
		}
		for _, k := range n.kids {
			if !k.leaf {
				assign(k, n.ctx)
			}
		}
	}
	assign(root, nil)
	if !ok {
		return 0, false
	}
	var build func(n *tnode) uint64 // returns the gas the frame needs
	build = func(n *tnode) uint64 {
		var calls []NodeCall
		need := uint64(0)
		for _, k := range n.kids {
			nc := NodeCall{Op: k.op, Strict: k.strict}
			if k.nzv {
				nc.Value = 1
			}
			if k.leaf {
				pl, pok := e.payload(k.ct, k.m, n.ctx, k.id)
				if !pok {
					ok = false
					return 0
				}
				k.gas = k.m.Gas + leafSlack
				nc.Target, nc.Payload, nc.Leaf, nc.Mask = k.ct.Addr, pl, true, Pow2(uint(k.id))
			} else {
				k.gas = build(k)
				nc.Target, nc.Payload = k.acct.GetEthAddress(), []byte{byte(k.vrnt)}
			}
			nc.Gas = k.gas
			need += k.gas + 25_000
			calls = append(calls, nc)
		}
		n.prog = calls
		return need*66/64 + 30_000
	}
	need := build(root)
	if !ok {
		return 0, false
	}
	for slot, nodes := range progs {
		switch len(nodes) {
		case 0:
		case 1:
			e.c.SetCode(e.pool[slot].GetEthAddress(), BuildNode(nodes[0].prog))
		default: // a re-entered contract: one program per node, selected by the first calldata byte (the root is program 0)
			var vs [][]NodeCall
			for _, nd := range nodes {
				vs = append(vs, nd.prog)
			}
			e.c.SetCode(e.pool[slot].GetEthAddress(), BuildNodeVariants(vs))
		}
	}
	gas := need*66/64 + 100_000
	if gas > 36_000_000 {
		return 0, false
	}
	return gas, true
}

func coqOp(op byte) string { return opName(op) }

func coqTree(n *tnode, top bool) string {
	if n.leaf {
		return fmt.Sprintf("Cpc %s %s (Leaf %s %s true)", coqOp(n.op), CqBool(n.nzv), CqNat(n.id), CqBool(n.m.RO))
	}
	var ks []string
	for _, k := range n.kids {
		ks = append(ks, fmt.Sprintf("(%s, %s)", CqBool(k.strict), coqTree(k, false)))
	}
	return fmt.Sprintf("Code %s %s %s", coqOp(n.op), CqBool(n.nzv), CqList(ks))
}

func descTree(n *tnode) string {
	s := opName(n.op)
	if n.nzv {
		s += "+value"
	}
	if n.strict {
		s += "!"
	}
	if n.leaf {
		ro := "rw"
		if n.m.RO {
			ro = "ro"
		}
		return fmt.Sprintf("%s>cpc[%d:%d:%s:%s]", s, n.id, n.ct.Type, n.m.Name, ro)
	}
	var ks []string
	for _, k := range n.kids {
		ks = append(ks, descTree(k))
	}
	return fmt.Sprintf("%s>code@%d{%s}", s, n.slot, strings.Join(ks, "; "))
}

type treeObs struct {
	Tree      string   `json:"tree"`
	Group     string   `json:"group"`
	Status    bool     `json:"status"`
	Mask      string   `json:"returned_mask"`
	Changed   bool     `json:"state_changed_or_logs"`
	AccNum    bool     `json:"global_account_number_moved"` // a number was drawn that no account holds afterwards
	AccSkip   int      `json:"account_numbers_drawn_and_held_by_no_account"`
	AccNew    int      `json:"accounts_created"`
	Logs      int      `json:"logs"`
	DirectDif []string `json:"stores_changed_by_direct_execution"`
	Gas       uint64   `json:"gas_limit"`
	GasUsed   uint64   `json:"gas_used"`
}

const accNumStore = "acc/globalAccountNumber"

// digests returns one digest per KV store of ctx. The auth module's global account number (collections prefix 2 of
// store "acc") is taken out of the "acc" digest and reported as a pseudo store of its own: evm.Call creates (and the
// commit removes again) an account for a precompile address that has none, which draws a number from that counter.
func (e *env) digests(ctx sdk.Context) map[string]string {
	out := map[string]string{}
	for name, key := range e.c.App.GetKVStoreKey() {
		h := sha256.New()
		it := ctx.MultiStore().GetKVStore(key).Iterator(nil, nil)
		for ; it.Valid(); it.Next() {
			k, v := it.Key(), it.Value()
			if name == "acc" && len(k) == 1 && k[0] == 2 {
				out[accNumStore] = hex.EncodeToString(v)
				continue
			}
			fmt.Fprintf(h, "%d:%x=%d:%x;", len(k), k, len(v), v)
		}
		it.Close()
		out[name] = hex.EncodeToString(h.Sum(nil)[:8])
	}
	return out
}

// accNums says what became of the account numbers drawn from the auth module's global counter.
//   Skipped: numbers drawn that no account holds afterwards. That is the trace evm.Call leaves when it creates an account
//     for an account-less precompile address (the empty account is removed again at commit, its number is gone): the
//     known finding, not an effect of any method.
//   Created: numbers held by an account that did not exist before. That is a method's own, legitimate effect (the bank
//     module creates the account of a recipient that had none: ERC-20 transfer / transferFrom to a fresh address; a
//     module account used for the first time); the new account is part of the "acc" store digest, i.e. of "state changed".
// The distinction is made on the store, by number, and does not look at the call tree or at any read-only flag.
type accNums struct{ Skipped, Created int }

// directExec applies the same message through the EVM keeper (no ante handler, no fee) on a cache of committed state and
// returns the names of all KV stores whose content differs afterwards (the sender's sequence is put back first).
func (e *env) directExec(sender *itutiltypes.TestAccount, to common.Address, data []byte, gas uint64) (changed []string, nums accNums, ret []byte, failed bool) {
	c := e.c
	ctx := c.QueryCtx()
	before := e.digests(ctx)
	numBefore, err := c.App.AccountKeeper.AccountNumber.Peek(ctx)
	require.NoError(e.t, err)
	from := sender.GetEthAddress()
	acc := c.App.AccountKeeper.GetAccount(ctx, from.Bytes())
	seq := acc.GetSequence()
	bf := c.BaseFee(ctx)
	msg := ethtypes.NewMessage(from, &to, seq, big.NewInt(0), gas, bf, bf, big.NewInt(0), data, nil, true)
	resp, err := c.App.EvmKeeper.ApplyMessage(ctx, msg, evmtypes.NewNoOpTracer(), true)
	require.NoError(e.t, err)
	acc = c.App.AccountKeeper.GetAccount(ctx, from.Bytes())
	require.NoError(e.t, acc.SetSequence(seq))
	c.App.AccountKeeper.SetAccount(ctx, acc)
	after := e.digests(ctx)
	for k, v := range after {
		if before[k] != v {
			changed = append(changed, k)
		}
	}
	sort.Strings(changed)
	numAfter, err := c.App.AccountKeeper.AccountNumber.Peek(ctx)
	require.NoError(e.t, err)
	require.GreaterOrEqual(e.t, numAfter, numBefore)
	for id := numBefore; id < numAfter; id++ {
		if _, err := c.App.AccountKeeper.Accounts.Indexes.Number.MatchExact(ctx, id); err != nil {
			nums.Skipped++
		} else {
			nums.Created++
		}
	}
	return changed, nums, resp.Ret, resp.Failed()
}

const sigAccNum = "C12/static/global-account-number-consumed-by-CALL-to-accountless-precompile"

// dropAccNum takes the counter's pseudo store out of the list of changed stores (accNums says what the numbers went to).
func dropAccNum(changed []string) (rest []string) {
	for _, s := range changed {
		if s != accNumStore {
			rest = append(rest, s)
		}
	}
	return
}

func (e *env) sender() *itutiltypes.TestAccount {
	s := e.senders[e.nextSend%len(e.senders)]
	e.nextSend++
	return s
}

// ------------------------------------------------------------------ the driver

func TestDriverStatic(t *testing.T) {
	dir := OutDir(t)
	seed := EnvSeed()
	n := EnvInt("VERIF_N", 150)
	rng := NewRng(seed)
	side := NewSidecar("static", seed,
		"case = one call tree executed as a real transaction (plus the same message executed through the EVM keeper under whole-store digests), "+
			"one direct EOA call per registered method, or one regenerated method table; trees: depth <= 5 over CALL/DELEGATECALL/CALLCODE/STATICCALL, "+
			"groups: all precompile calls under a STATICCALL (main), mixed, no STATICCALL (control); a sweep puts every registered method under nine fixed shapes "+
			"(four of them re-entrant: the transaction's `to` contract calling itself by STATICCALL, called back below a STATICCALL, lending its address to library code, A -> B -> A); "+
			"in random trees a code node stands at the address of the root / an ancestor / an earlier node with chance 30 (re-entered contracts); "+
			"non-trivial = tree in which a state-changing method sits under a STATICCALL that is not its own opcode (inherited flag), distinct by shape+methods")
	cases := NewCases(dir, "From Coq Require Import List ZArith Bool.\nFrom Evm Require Import StaticCtx CorrStaticCtx.", "sc_mismatches")
	idx := 0

	// hx.Sidecar.Hit keeps the first 200 hits of a run and only counts the rest. The known finding fires for every
	// tree with a successful CALL-opcode leaf under a STATICCALL (hundreds of times in the thorough tier), so it is
	// recorded at most maxHitsPerSig times per signature: a later hit of another signature can never be crowded out.
	// (every occurrence is still counted in the histogram, "oracle_hit_all:<signature>")
	const maxHitsPerSig = 6
	hitsOf := map[string]int{}
	hit := func(sig, msg string, c interface{}) {
		side.Count("oracle_hit_all:" + sig)
		if hitsOf[sig] < maxHitsPerSig {
			hitsOf[sig]++
			side.Hit(sig, msg, c)
		}
	}

	e := newEnv(t)
	perEnv := 0
	fresh := func() {
		if perEnv >= 120 {
			e = newEnv(t)
			perEnv = 0
		}
		perEnv++
	}

	// ---- 1. regenerated tables
	var types []int
	seenT := map[uint32]bool{}
	for _, ct := range e.cts {
		var rows []string
		for _, m := range ct.Methods {
			rows = append(rows, fmt.Sprintf("Method %d 0x%s %s %s", ct.Type, hex.EncodeToString(m.Sel[:]), CqBool(m.RO), CqZu(m.Gas)))
			if !m.RO && m.Gas == 0 {
				hit(fmt.Sprintf("C12/static/rw-method-zero-gas/%d:%x", ct.Type, m.Sel), "a state-changing method requires no gas", map[string]interface{}{"contract": ct.Addr.Hex(), "selector": hex.EncodeToString(m.Sel[:])})
			}
			side.Count(fmt.Sprintf("table:type%d:%s", ct.Type, map[bool]string{true: "ro", false: "rw"}[m.RO]))
		}
		cases.Add(fmt.Sprintf("TableCase %d %s", ct.Type, CqList(rows)))
		side.Case(idx, fmt.Sprintf("table/%s", ct.Addr.Hex()), false, map[string]interface{}{"kind": "table", "contract": ct.Addr.Hex(), "type": ct.Type, "methods": len(ct.Methods)})
		idx++
		if !seenT[ct.Type] {
			seenT[ct.Type] = true
			types = append(types, int(ct.Type))
		}
	}
	sort.Ints(types)
	var ts []string
	for _, x := range types {
		ts = append(ts, CqZi(int64(x)))
	}
	cases.Add("TypesCase " + CqList(ts))
	side.Case(idx, "types", false, map[string]interface{}{"kind": "types", "types": types})
	idx++

	runTree := func(root *tnode, group string) {
		annotate(root)
		gas, ok := e.place(root)
		if !ok {
			side.Count("skipped:does_not_fit")
			return
		}
		if group == "control" || group == "mixed" {
			e.accrue() // unprotected withdrawals need pending rewards
		}
		sender := e.sender()
		to := root.acct.GetEthAddress()
		dchanged, nums, dret, dfailed := e.directExec(sender, to, nil, gas)
		dchanged = dropAccNum(dchanged)
		accNum := nums.Skipped > 0
		if nums.Created > 0 {
			side.Count("tree_in_which_a_method_created_an_account")
			if !accNum {
				side.Count("tree_in_which_a_method_created_an_account:no_number_skipped")
			}
		}
		before := e.projection(e.c.QueryCtx())
		res := e.c.SendEth(sender, to, nil, gas)
		require.Equal(t, uint32(0), res.Code, "transaction rejected before execution")
		after := e.projection(e.c.QueryCtx())
		mask := new(big.Int).SetBytes(res.Ret)
		status := res.Status == 1
		if !status {
			mask = big.NewInt(0)
		}
		changed := before != after || len(res.Logs) > 0 || len(dchanged) > 0
		o := treeObs{Tree: descTree(root), Group: group, Status: status, Mask: mask.Text(2), Changed: changed, AccNum: accNum, AccSkip: nums.Skipped, AccNew: nums.Created, Logs: len(res.Logs), DirectDif: dchanged, Gas: gas, GasUsed: res.GasUsed}
		cases.Add(fmt.Sprintf("TreeCase (%s) %s %s %s %s", coqTree(root, true), CqBool(status), CqZ(mask), CqBool(changed), CqBool(accNum)))

		// ---- direct oracle (property text), independent of the model
		inherited := false
		reentered := false
		allProt := true
		offending := ""
		var shape []string
		walk(root, func(nd *tnode, path []*tnode) {
			if !nd.leaf {
				return
			}
			shape = append(shape, fmt.Sprintf("%s@%d:%d:%s", nd.path, path[len(path)-1].slot, nd.ct.Type, nd.m.Name))
			side.Count(fmt.Sprintf("leaf:type%d:%s", nd.ct.Type, nd.m.Name))
			side.Count("leaf_op:" + opName(nd.op))
			side.Count(fmt.Sprintf("leaf_depth:%d", len(path)))
			if !nd.prot {
				allProt = false
				if status && mask.Bit(nd.id) == 1 {
					side.Count("unprotected_leaf_succeeded")
				} else {
					side.Count("unprotected_leaf_not_in_mask")
				}
			}
			if caller := path[len(path)-1]; nd.prot && !nd.m.RO && nd.op != OpSTATICCALL {
				// who calls matters to nobody, says the property: the calling frame's address is the entry contract's ...
				if caller.ctx == root.acct && caller != root {
					side.Count("protected_rw_leaf_called_from_entry_contract_address")
					reentered = true
				} else if caller != root {
					// ... or that of some contract that is on the call stack more than once
					for _, anc := range path[:len(path)-1] {
						if anc.ctx == caller.ctx {
							side.Count("protected_rw_leaf_called_from_address_already_on_the_stack")
							reentered = true
							break
						}
					}
				}
			}
			if nd.prot && !nd.m.RO {
				if nd.op != OpSTATICCALL {
					inherited = true
				}
				if status && mask.Bit(nd.id) == 1 && offending == "" {
					offending = nd.path + "-rw-method"
				}
			}
		}, nil)
		if accNum && allProt {
			hit(sigAccNum, "a call tree whose precompile calls are all inside a STATICCALL advanced the auth module's global account number", o)
		}
		if offending != "" {
			hit("C12/static/"+offending, "a state-changing precompile method succeeded inside a read-only (STATICCALL) context", o)
		} else if allProt && changed {
			hit("C12/static/state-or-logs-changed-under-STATICCALL", fmt.Sprintf("every precompile call of the tree is inside a STATICCALL, yet state changed or logs were emitted (stores changed by direct execution: %v, logs: %d)", dchanged, len(res.Logs)), o)
		}
		if dfailed == status || status && string(dret) != string(res.Ret) {
			hit("C12/static/transaction-and-direct-execution-differ", "the same message returned different data as a transaction and through the EVM keeper", o)
		}
		side.Count("group:" + group)
		if reentered {
			side.Count("tree_with_protected_rw_leaf_called_from_reentered_contract")
		}
		side.Count(fmt.Sprintf("status:%v", status))
		side.Count(fmt.Sprintf("changed:%v", changed))
		side.Case(idx, group+"/"+strings.Join(shape, ","), inherited, o)
		idx++
	}

	// ---- 2. sweep: every registered method under five fixed shapes
	mk := func(op byte, kids ...*tnode) *tnode { return &tnode{op: op, kids: kids} }
	for _, mm := range e.allMethods() {
		if mm.m.Name == "" {
			side.Count("method_unknown_to_harness")
			continue
		}
		for s := 0; s < 9; s++ {
			fresh()
			leaf := &tnode{leaf: true, id: 0, ct: mm.ct, m: mm.m}
			var root *tnode
			switch s {
			case 5: // the transaction's `to` contract STATICCALLs itself, then calls the precompile
				leaf.op = OpCALL
				again := mk(OpSTATICCALL, leaf)
				root = mk(OpCALL, again)
				again.same = root
			case 6: // ... is called back below a STATICCALL
				leaf.op = OpDELEGATECALL
				again := mk(OpCALL, leaf)
				root = mk(OpCALL, mk(OpSTATICCALL, again))
				again.same = root
			case 7: // ... re-entered read-only, lends its address to library code that calls the precompile
				leaf.op = OpCALLCODE
				again := mk(OpSTATICCALL, mk(OpDELEGATECALL, leaf))
				root = mk(OpCALL, again)
				again.same = root
			case 8: // A -> B -> A below the entry contract, the STATICCALL in between
				leaf.op = OpCALL
				again := mk(OpCALL, leaf)
				a := mk(OpCALL, mk(OpSTATICCALL, mk(OpCALL, again))) // A{STATICCALL>B{CALL>A{CALL>cpc}}}
				again.same = a
				root = mk(OpCALL, a)
			case 0: // direct STATICCALL
				leaf.op = OpSTATICCALL
				root = mk(OpCALL, leaf)
			case 1: // the shape of finding #6
				leaf.op = OpCALL
				root = mk(OpCALL, mk(OpSTATICCALL, leaf))
			case 2:
				leaf.op = OpDELEGATECALL
				root = mk(OpCALL, mk(OpSTATICCALL, mk(OpDELEGATECALL, leaf)))
			case 3:
				leaf.op = OpCALLCODE
				root = mk(OpCALL, mk(OpSTATICCALL, mk(OpCALL, leaf)))
			default: // static frame deeper down, non-static frames above and below
				leaf.op = OpCALL
				root = mk(OpCALL, mk(OpCALL, mk(OpSTATICCALL, mk(OpCALLCODE, mk(OpCALL, leaf)))))
			}
			// the mixed-case methods of a context need that context's key: leaf.id doubles as argument variant
			leaf.id = s
			runTree(root, "sweep")
		}
	}

	// ---- 3. random trees
	for i := 0; i < n; i++ {
		fresh()
		r := rng.Fork(uint64(i))
		g := &treeGen{r: r, maxDepth: 2 + r.Intn(4)}
		root := g.code(0, OpCALL)
		if g.leaves == 0 {
			side.Count("skipped:no_leaf")
			continue
		}
		group := "main"
		switch x := r.Intn(100); {
		case x >= 85:
			group = "control"
		case x >= 70:
			group = "mixed"
		}
		annotate(root)
		switch group {
		case "main": // give every leaf a STATICCALL on its path
			walk(root, func(nd *tnode, path []*tnode) {
				if !nd.leaf {
					return
				}
				annotate(root)
				if nd.prot {
					return
				}
				cand := append(append([]*tnode{}, path[1:]...), nd)
				cand[r.Intn(len(cand))].op = OpSTATICCALL
			}, nil)
		case "control":
			walk(root, func(nd *tnode, _ []*tnode) {
				if nd.op == OpSTATICCALL {
					nd.op = OpCALL
				}
			}, nil)
		}
		root.op = OpCALL
		annotate(root)
		// re-entered contracts: a code node may stand at the address of the root (the transaction's `to` contract), of one
		// of its ancestors (self call, A -> B -> A) or of any node visited before it
		var visited []*tnode
		walk(root, func(nd *tnode, path []*tnode) {
			if nd.leaf {
				return
			}
			if len(path) > 0 && r.Chance(30) {
				switch x := r.Intn(10); {
				case x < 5:
					nd.same = root
				case x < 8:
					nd.same = path[r.Intn(len(path))]
				default:
					nd.same = visited[r.Intn(len(visited))]
				}
				side.Count("code_node_at_the_address_of_an_earlier_node")
			}
			visited = append(visited, nd)
		}, nil)
		// values: CALL carries a value only where the caller is already read-only (the opcode then aborts the calling
		// frame; outside it would move coins, which is not a precompile effect); CALLCODE anywhere
		var setv func(nd *tnode, ro bool)
		setv = func(nd *tnode, ro bool) {
			for _, k := range nd.kids {
				if (k.op == OpCALL && ro || k.op == OpCALLCODE) && r.Chance(12) {
					k.nzv = true
				}
				if !k.leaf {
					setv(k, ro || k.op == OpSTATICCALL)
				}
			}
		}
		setv(root, false)
		// methods: protected leaves take any method (state-changing ones preferred); unprotected leaves avoid a second
		// state-changing staking method in the same transaction (their success depends on pending rewards)
		all := e.allMethods()
		usedStakingRW := false
		walk(root, func(nd *tnode, _ []*tnode) {
			if !nd.leaf {
				return
			}
			for try := 0; try < 200; try++ {
				mm := all[r.Intn(len(all))]
				if mm.m.Name == "" {
					continue
				}
				if mm.m.RO && r.Chance(55) {
					continue
				}
				if !nd.prot && !mm.m.RO && mm.ct.Type == cpctypes.CpcTypeStaking {
					if usedStakingRW {
						continue
					}
					usedStakingRW = true
				}
				nd.ct, nd.m = mm.ct, mm.m
				break
			}
			require.NotNil(t, nd.m)
		}, nil)
		runTree(root, group)
	}

	// ---- 4. every method executed directly by an externally owned account (non-static context)
	e = newEnv(t)
	for _, mm := range e.allMethods() {
		if mm.m.Name == "" {
			continue
		}
		for variant := 0; variant < 3; variant++ {
			if variant > 0 && !(mm.ct.Type == cpctypes.CpcTypeStaking && !mm.m.RO) {
				break
			}
			pl, ok := e.payload(mm.ct, mm.m, e.eoa, variant)
			require.True(t, ok)
			if !mm.m.RO && mm.ct.Type == cpctypes.CpcTypeStaking {
				e.accrue() // withdrawals need pending rewards
			}
			gas := uint64(21000+16*len(pl)) + mm.m.Gas + 200_000
			dchanged, nums, _, _ := e.directExec(e.eoa, mm.ct.Addr, pl, gas)
			dchanged = dropAccNum(dchanged)
			accNum := nums.Skipped > 0
			res := e.c.SendEth(e.eoa, mm.ct.Addr, pl, gas)
			require.Equal(t, uint32(0), res.Code)
			status := res.Status == 1
			logs := len(res.Logs)
			mask := big.NewInt(0)
			if status {
				mask = big.NewInt(1)
			}
			desc := map[string]interface{}{"kind": "direct", "contract": mm.ct.Addr.Hex(), "type": mm.ct.Type, "method": mm.m.Name, "read_only": mm.m.RO,
				"status": status, "logs": logs, "stores_changed_by_direct_execution": dchanged, "gas_used": res.GasUsed, "require_gas": mm.m.Gas, "variant": variant,
				"account_numbers_drawn_and_held_by_no_account": nums.Skipped, "accounts_created": nums.Created}
			changed := len(dchanged) > 0 || logs > 0
			if mm.m.RO {
				if accNum {
					hit(sigAccNum, "a call of a method declared read-only advanced the auth module's global account number", desc)
				}
				if changed {
					hit(fmt.Sprintf("C12/static/ro-method-wrote-state/%d:%x", mm.ct.Type, mm.m.Sel), fmt.Sprintf("a method declared read-only changed stores %v / emitted %d logs in a non-static context", dchanged, logs), desc)
				}
			} else if status && !changed {
				side.Count("direct_rw_without_effect")
			}
			if res.GasUsed < 21000+mm.m.Gas {
				hit(fmt.Sprintf("C12/static/gas-not-charged/%d:%x", mm.ct.Type, mm.m.Sel), "the transaction used less gas than intrinsic + the method's declared cost", desc)
			}
			cases.Add(fmt.Sprintf("TreeCase (Cpc CALL false (Leaf 0%%nat %s true)) %s %s %s %s", CqBool(mm.m.RO), CqBool(status), CqZ(mask), CqBool(changed), CqBool(accNum)))
			side.Count(fmt.Sprintf("direct:type%d:%s:%v", mm.ct.Type, mm.m.Name, status))
			side.Case(idx, fmt.Sprintf("direct/%d/%s/%d", mm.ct.Type, mm.m.Name, variant), false, desc)
			idx++
		}
	}

	cases.Write(t, 400)
	side.Write(t, dir)
}
